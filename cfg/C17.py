CHECK = {'rule': 'three case kinds around the real varutil.ReadArguments / argscope.InjectArgs+InjectString: (a) EXHAUSTIVE all byte strings of length <= 6 '
         "(quick) / <= 8 (thorough) over {blank, tab, NL, quote, backslash, '=', '<', 'a', 0xC3}; (b) rapid-generated command scripts (1-4 commands "
         'of bare / quoted / mixed-segment / heredoc arguments over bytes 0x01-0xFF, random blank runs with backslash-newline continuations, '
         'optional missing final newline) rendered by a reference quoting function and read back call by call; (c) rapid-generated raw strings of '
         "7-60 significant bytes/tokens; (d) argument lists (named with 0-2 dashes, positional, '--' tail) through InjectArgs directly and, quoted, "
         'through InjectString; thorough adds native go fuzzing of the raw-bytes executor. Every input: no panic, terminates, a command returned '
         'with eof=false ends exactly at a newline, eof=true only with the reader exhausted. Inputs inside the reference grammar (all of (b), those '
         'of (a)/(c)/fuzz the independent reference splitter accepts): args byte-for-byte, eof flag, bytes consumed after every call, number of '
         'calls. Non-trivial: the input contains a quote, a backslash, a heredoc opener, a byte >= 0x80 or a second command (inject: named and '
         'positional arguments both occur, or the rendered line satisfies the rule). Distinct = distinct case JSON (FNV-64); enumerated strings '
         'longer than 6 are counted (counter enum_nontrivial_len7plus_not_hashed) but not hashed. Second exhaustive family (TestEnumHeredoc): '
         "'k=<<M NL body NL M t NL n x NL' for M in {AB, AAB, ABAB} and every body of length <= 7 (quick) / <= 9 (thorough) over {A, B, NL, blank, x}. "
         'Heredoc content lines include proper prefixes of the marker (also as last line), the marker inside a line, prefix-then-other, empty and '
         'blank-only lines. A heredoc whose blank-trimmed text is empty or starts/ends with NL/CR/VT/FF is NOT excluded any more: its text is '
         'compared modulo surrounding ASCII white space, everything else (no error, other arguments, eof, bytes consumed, next command) exactly. '
         'Kind loop (TestPropLoop): termexec.RunLoop on a MockupApp whose shared input is a generated script of rec/r2 (record injected $0..$5, a, b, '
         'path, msg, --), take lines=N|bytes=K|cmd=1 (the command itself reads the following lines / bytes / one ReadArguments command from ctx.IO().In(), '
         'payload looks like commands), sub (nested RunLoop on the same input), blank lines, unknown commands; compared with a simulation over the script '
         'text (reference splitter + argument-mapping model): sequence of dispatched commands with their arguments and nesting depth, bytes of the shared '
         'input consumed at each dispatch and after the loop, every payload byte-for-byte, error iff the model reaches an unknown command. Non-trivial for '
         'loop cases: a command dispatched after a take, a nested loop, or >= 3 dispatched commands.',
 'assumptions': ['blank = space or tab; escapes outside quotes are exactly \\\\ and \\" (as pinned by varutil/arguments_test.go)',
                 'adjacent bare and quoted pieces form one argument (numbers="12 12" in the library\'s own tests)',
                 'not asserted (never generated / rejected by the reference splitter): a backslash before any other byte, a backslash inside quotes '
                 'other than \\", a newline or end of input inside quotes, a continuation directly between two argument bytes, heredocs with zero '
                 'content lines, with a content line starting with the marker, without terminator; the exact surrounding white space of a heredoc '
                 "text that starts/ends with an empty/CR/VT/FF line; '=' inside a named value, positional arguments starting with '-', duplicate names",
                 'error presence only; error texts never compared'],
 'essential_labels': {'all': ['loop-from-reader-second-command', 'loop-input-ends-inside-quote', 'arg-starts-with-escape',
                              'escape-outside-quotes',
                              'escaped-quote-in-quotes',
                              'quoted-blank',
                              'mixed-arg',
                              'non-ascii',
                              'heredoc',
                              'heredoc-non-ascii',
                              'heredoc-trimmed',
                              'continuation',
                              'continuation-then-arg',
                              'second-command',
                              'no-final-newline',
                              'bytes-in-grammar',
                              'bytes-outside-grammar',
                              'inject-via-string',
                              'inject-dashdash',
                              'inject-interleaved',
                              'inject-dashed-name',
                              'heredoc-marker-prefix-line',
                              'heredoc-marker-prefix-last-line',
                              'heredoc-marker-inside-line',
                              'heredoc-marker-prefix-then-other',
                              'heredoc-overlapping-marker',
                              'heredoc-empty-last-line',
                              'heredoc-open-text',
                              'bytes-heredoc-in-grammar',
                              'bytes-heredoc-multiline',
                              'bytes-heredoc-open-text',
                              'loop-case',
                              'loop-command-after-take',
                              'loop-take-cmd',
                              'loop-take-lines-or-bytes',
                              'loop-take-midline',
                              'loop-nested',
                              'loop-take-in-nested',
                              'loop-unknown-command']},
 'tiers': {'quick': [{'test': '^TestEnum$', 'shards': 4, 'timeout': 240},
                     {'test': '^TestEnumHeredoc$', 'shards': 2, 'timeout': 240, 'env': {'VERIF_C17_HEREDOC_LEN': 7}},
                     {'test': '^TestPropGrammar$', 'checks': 80000, 'shards': 4, 'timeout': 240},
                     {'test': '^TestPropBytes$', 'checks': 100000, 'shards': 2, 'timeout': 240, 'seed_offset': 101},
                     {'test': '^TestPropInject$', 'checks': 60000, 'shards': 2, 'timeout': 240, 'seed_offset': 202},
                     {'test': '^TestPropLoop$', 'checks': 3000, 'shards': 2, 'timeout': 240, 'seed_offset': 303}],
           'thorough': [{'test': '^TestEnum$', 'shards': 16, 'timeout': 1500},
                        {'test': '^TestEnumHeredoc$', 'shards': 8, 'timeout': 1500},
                        {'test': '^TestPropGrammar$', 'checks': 300000, 'shards': 16, 'timeout': 1500},
                        {'test': '^TestPropBytes$', 'checks': 300000, 'shards': 8, 'timeout': 1500, 'seed_offset': 101},
                        {'test': '^TestPropInject$', 'checks': 200000, 'shards': 8, 'timeout': 1500, 'seed_offset': 202},
                        {'test': '^TestPropLoop$', 'checks': 40000, 'shards': 8, 'timeout': 1500, 'seed_offset': 303},
                        {'test': '^$', 'fuzz': '^FuzzSplit$', 'fuzztime': '120s', 'gomaxprocs': 4, 'timeout': 400}]}}

TEXT = {'technique': 'exhaustive small-alphabet enumeration (all strings <= 6 / <= 8 bytes over 9 significant bytes) + grammar-based round-trip property '
              'testing (rapid) + differential comparison with an independent reference splitter + native go fuzzing (thorough); model check of '
              'InjectArgs/InjectString key mapping',
 'level_text': 'Exhaustive for every byte string up to length 6 (quick) / 8 (thorough) over {blank, tab, NL, quote, backslash, =, <, a, 0xC3}: '
               'totality on all of them, full argument/eof/consumption comparison on the ~30 % inside the defined grammar. Beyond that bound '
               'exploration: generated command scripts over bytes 0x01-0xFF and argument lists, plus a 2-minute coverage-guided fuzz campaign in '
               'thorough.',
 'level_note': 'Trusts the reference quoting function and reference splitter in props/c17 (cross-checked by TestSelf). Inputs whose meaning the '
               'statement leaves open are only checked for totality. termexec.RunLoop is not driven.',
 'design_ref': 'DESIGN.md 4/C17'}
