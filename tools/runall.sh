#!/bin/sh
# usage: tools/runall.sh [quick|thorough]  — runs every claimed check on /repo and prints one line per check
TIER=${1:-quick}
cd /verif
for p in $(python3 -c "import json;print(' '.join(c['property_id'] for c in json.load(open('MANIFEST.json'))['checks']))"); do
  ./check $p --tier $TIER 2>&1 | grep -E "^VIOLATION|^KNOWN-FINDING|seed=|inconclusive:" | cut -c1-220
done
