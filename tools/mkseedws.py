#!/usr/bin/env python3
"""mkseedws.py <tag> <N> [ids...]: creates /tmp/<WS_KIND=seed|benign>-cNN<tag>/{repo (worktree of /repo HEAD), out/, PROMPT.md} for seeding sub-agents.
The prompt holds only the property text (tools/SEED_PROMPT.md); nothing from /verif is copied."""
import json, os, subprocess, sys
tag, n = sys.argv[1], sys.argv[2]
props = {}
for l in open("/verif/properties.jsonl"):
    d = json.loads(l)
    props[d["id"]] = d
ids = [a.upper() for a in sys.argv[3:]] or sorted(props)
kind = os.environ.get("WS_KIND", "seed")  # seed | benign
tpl = open("/verif/tools/%s_PROMPT.md" % kind.upper()).read()
extra = os.environ.get("SEED_EXTRA", "")
for ID in ids:
    d = props[ID]
    ws = "/tmp/%s-%s%s" % (kind, ID.lower(), tag)
    os.makedirs(ws + "/out", exist_ok=True)
    if not os.path.exists(ws + "/repo"):
        subprocess.run("git -C /repo worktree add -q --detach %s/repo HEAD" % ws, shell=True, check=True)
    t = (tpl.replace("__W__", ws + "/repo").replace("__OUT__", ws + "/out").replace("__ID__", ID).replace("__N__", n)
         .replace("__TITLE__", d["title"]).replace("__STATEMENT__", d["statement"]).replace("__QUANT__", d["quantifier"]["text"])
         .replace("__FILES__", ", ".join(d["anchors"]["files"])))
    if extra:
        t += "\n" + extra + "\n"
    open(ws + "/PROMPT.md", "w").write(t)
    print(ws)
