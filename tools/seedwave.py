#!/usr/bin/env python3
"""seedwave.py <tag> [ids...]: processes /tmp/seed-<id><tag>/out/<k> with seedcheck (3 in parallel), auto-named <ID>-s<n>-<slug>."""
import glob, json, os, re, subprocess, sys
from concurrent.futures import ThreadPoolExecutor
tag = sys.argv[1]
ids = sys.argv[2:] or sorted({os.path.basename(d)[5:8] for d in glob.glob("/tmp/seed-c??%s" % tag)})
jobs = []
for cid in ids:
    ID = cid.upper()
    have = len(glob.glob("/verif/seeded/%s-s*" % ID))
    for k in (1, 2, 3):
        d = "/tmp/seed-%s%s/out/%d" % (cid, tag, k)
        if not (os.path.exists(d + "/meta.json") and os.path.exists(d + "/patch.diff")):
            continue
        m = json.load(open(d + "/meta.json"))
        slug = re.sub(r"[^a-z0-9]+", "-", m.get("summary", "change").lower())[:40].strip("-")
        have += 1
        jobs.append((d, ID, "%s-s%d-%s" % (ID, have, slug)))
def run(j):
    p = subprocess.run(["python3", "/verif/tools/seedcheck.py", j[0], j[1], j[2]], capture_output=True, text=True)
    line = (p.stdout.strip().splitlines() or ["{}"])[-1]
    print(line[:400], flush=True)
with ThreadPoolExecutor(3) as ex:
    list(ex.map(run, jobs))
