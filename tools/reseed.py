#!/usr/bin/env python3
"""reseed.py [names...]: re-runs the quick check of each seeded change's property against the patched tree
(scratch worktree, VERIF_REPO) and writes seeded/RESULTS.json. Expected: CAUGHT for all but those with an 'assessment'."""
import glob, json, os, subprocess, sys, time
from concurrent.futures import ThreadPoolExecutor
names = sys.argv[1:] or sorted(os.path.basename(d) for d in glob.glob("/verif/seeded/*") if os.path.isdir(d))
env = dict(os.environ, GOFLAGS="-mod=mod", GOPROXY="off", GOSUMDB="off", GOTOOLCHAIN="local")
def run(name):
    d = "/verif/seeded/" + name
    m = json.load(open(d + "/meta.json"))
    pid = m["breaks_property"]
    alt = None
    q = str(m.get("check_result_quick", ""))
    if "by C" in q:
        alt = q.split("by ")[1].strip()
    W = "/tmp/reseed-%s" % name
    subprocess.run("git -C /repo worktree add -q --detach %s HEAD" % W, shell=True)
    try:
        a = subprocess.run("git apply %s/patch.diff" % d, shell=True, cwd=W, capture_output=True, text=True)
        if a.returncode != 0:
            return name, "PATCH-DOES-NOT-APPLY", pid
        res = {}
        for p in [pid] + ([alt] if alt else []):
            r = subprocess.run("VERIF_REPO=%s ./check %s --tier quick" % (W, p), shell=True, cwd="/verif", env=env, capture_output=True, text=True)
            res[p] = {0: "MISSED", 1: "CAUGHT", 2: "INCONCLUSIVE"}.get(r.returncode, str(r.returncode))
            if r.returncode == 1 and ("VIOLATION property=%s " % p) not in r.stdout:
                res[p] = "DRIVER-ERROR"
        verdict = "CAUGHT" if "CAUGHT" in res.values() else "/".join(res.values())
        return name, verdict, ",".join("%s:%s" % kv for kv in res.items())
    finally:
        subprocess.run("git -C /repo worktree remove --force %s" % W, shell=True)
out = json.load(open("/verif/seeded/RESULTS.json")) if os.path.exists("/verif/seeded/RESULTS.json") else {}
with ThreadPoolExecutor(3) as ex:
    for name, verdict, detail in ex.map(run, names):
        exp = "MISSED (by design)" if "assessment" in json.load(open("/verif/seeded/%s/meta.json" % name)) else "CAUGHT"
        flag = "" if (verdict == "CAUGHT") == (exp == "CAUGHT") else "   <-- UNEXPECTED"
        print("%-60s %-14s %s%s" % (name, verdict, detail, flag), flush=True)
        out[name] = {"verdict": verdict, "detail": detail, "expected": exp}
json.dump(out, open("/verif/seeded/RESULTS.json", "w"), indent=1)
