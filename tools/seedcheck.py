#!/usr/bin/env python3
"""seedcheck.py <seed_out_dir/k> <ID> <name>
Confirms a sub-agent's seeded change independently and runs our check against it:
  1. fresh scratch worktree of /repo HEAD; patch applies; builds; whole suite passes with the patch
  2. demonstration passes WITHOUT the patch and fails WITH it
  3. ./check <ID> --tier quick against the patched worktree (VERIF_REPO) -> caught / missed
Keeps the change as /verif/seeded/<name>/ (patch.diff, demo files, meta.json) only if 1 and 2 hold."""
import json, os, shutil, subprocess, sys, glob, time
src, pid, name = sys.argv[1], sys.argv[2], sys.argv[3]
env = dict(os.environ, GOFLAGS="-mod=mod", GOPROXY="off", GOSUMDB="off", GOTOOLCHAIN="local")
W = "/tmp/seedchk-%d" % os.getpid()
def sh(cmd, cwd=None, timeout=900):
    p = subprocess.run(cmd, shell=True, cwd=cwd, env=env, stdout=subprocess.PIPE, stderr=subprocess.STDOUT, text=True, timeout=timeout)
    return p.returncode, p.stdout
meta = json.load(open(os.path.join(src, "meta.json")))
patch = os.path.abspath(os.path.join(src, "patch.diff"))
demo_files = [f for f in glob.glob(os.path.join(src, "**"), recursive=True) if os.path.isfile(f) and not f.endswith(("patch.diff", "meta.json"))]
res = {"property": pid, "name": name}
sh("git -C /repo worktree add -q --detach %s HEAD" % W)
try:
    # place demo files at the same relative paths the agent used (demo files carry their path in meta or are copied flat)
    import re
    demo = meta["demo"]
    # demonstrations were saved flat: their package directory is the ./path/ named in the demo command
    m = re.findall(r"(?:^|\s)\./([A-Za-z0-9_/.-]+?)/?(?=\s|$)", demo)
    pkgdir = m[-1] if m else ""
    if "&&" in demo and demo.strip().startswith("cp "):
        demo = demo.split("&&", 1)[1].strip()
    relmap = {}
    for f in demo_files:
        rel = os.path.relpath(f, src)
        if os.path.dirname(rel) == "" and rel.endswith("_demo_test.go"):
            rel2 = os.path.join(pkgdir, rel)
        else:
            rel2 = rel
        relmap[f] = rel2
        dst = os.path.join(W, rel2)
        os.makedirs(os.path.dirname(dst), exist_ok=True)
        shutil.copy(f, dst)
    rc0, out0 = sh(demo, cwd=W)
    res["demo_without_patch"] = "pass" if rc0 == 0 else "FAIL"
    rc, out = sh("git apply %s" % patch, cwd=W)
    res["patch_applies"] = rc == 0
    if rc != 0:
        res["apply_output"] = out[-500:]
    rc, out = sh("go build ./... && go test -vet=off -count=1 $(go list ./... | grep -v cmd_demo) 2>&1 | grep -v _demo_test | tail -40", cwd=W)
    # run the suite but ignore the demo test itself: move demo tests away for the suite run
    for f in demo_files:
        rel = relmap[f]
        if rel.endswith("_demo_test.go"):
            os.rename(os.path.join(W, rel), os.path.join(W, rel) + ".off")
    rc, out = sh("go build ./... && go test -vet=off -count=1 $(go list ./... | grep -v cmd_demo)", cwd=W)
    res["suite_with_patch"] = "pass" if rc == 0 else "FAIL"
    if rc != 0:
        res["suite_output"] = out[-1500:]
    for f in demo_files:
        rel = relmap[f]
        if rel.endswith("_demo_test.go"):
            os.rename(os.path.join(W, rel) + ".off", os.path.join(W, rel))
    fails = 0
    for i in range(3):
        rc1, out1 = sh(demo, cwd=W)
        fails += rc1 != 0
    res["demo_with_patch_failed"] = "%d/3" % fails
    # our check (demo files removed again so they cannot interfere)
    for f in demo_files:
        rel = relmap[f]
        try: os.remove(os.path.join(W, rel))
        except OSError: pass
    t0 = time.time()
    rc, out = sh("VERIF_REPO=%s ./check %s --tier quick" % (W, pid), cwd="/verif", timeout=1200)
    res["check_quick"] = {0: "MISSED", 1: "CAUGHT", 2: "INCONCLUSIVE"}.get(rc, "rc=%d" % rc)
    if rc == 1 and ("VIOLATION property=%s " % pid) not in out:
        res["check_quick"] = "DRIVER-ERROR"
    res["check_wall_s"] = round(time.time() - t0, 1)
    clauses = sorted(set(l.split("clause=")[1].split()[0].rstrip(":") for l in out.splitlines() if "VIOLATION clause=" in l))
    res["clauses"] = clauses[:6]
    ok = res["demo_without_patch"] == "pass" and res["patch_applies"] and res["suite_with_patch"] == "pass" and fails >= 2
    res["confirmed"] = ok
    if ok:
        dst = os.path.join("/verif/seeded", name)
        shutil.rmtree(dst, ignore_errors=True)
        os.makedirs(dst)
        shutil.copy(patch, os.path.join(dst, "patch.diff"))
        for f in demo_files:
            rel = relmap[f]
            os.makedirs(os.path.dirname(os.path.join(dst, "demo", rel)), exist_ok=True)
            shutil.copy(f, os.path.join(dst, "demo", rel))
        meta.update({"breaks_property": pid, "confirmed_by": "tools/seedcheck.py: patch applied to a fresh worktree of /repo HEAD %s; go build + whole suite pass with it; demonstration passes without and fails with it (%s runs); then ./check %s --tier quick with VERIF_REPO=<worktree>" % (
            subprocess.run("git -C /repo rev-parse --short HEAD", shell=True, capture_output=True, text=True).stdout.strip(), res["demo_with_patch_failed"], pid),
            "check_result_quick": res["check_quick"], "check_clauses": res["clauses"]})
        json.dump(meta, open(os.path.join(dst, "meta.json"), "w"), indent=1)
finally:
    sh("git -C /repo worktree remove --force %s" % W)
print(json.dumps(res))
