#!/usr/bin/env python3
"""rebenign.py: re-runs the quick check against every kept property-preserving refactoring; all must stay SILENT."""
import glob, json, os, subprocess, sys
from concurrent.futures import ThreadPoolExecutor
names = sys.argv[1:] or sorted(os.path.basename(d) for d in glob.glob("/verif/benign/*") if os.path.isdir(d))
env = dict(os.environ, GOFLAGS="-mod=mod", GOPROXY="off", GOSUMDB="off", GOTOOLCHAIN="local")
def run(name):
    d = "/verif/benign/" + name
    m = json.load(open(d + "/meta.json"))
    pid = m["checked_against"]
    W = "/tmp/rebenign-%s" % name
    subprocess.run("git -C /repo worktree add -q --detach %s HEAD" % W, shell=True)
    try:
        a = subprocess.run("git apply %s/patch.diff" % d, shell=True, cwd=W, capture_output=True, text=True)
        if a.returncode != 0:
            a = subprocess.run("patch -p1 --fuzz=3 --no-backup-if-mismatch < %s/patch.diff" % d, shell=True, cwd=W, capture_output=True, text=True)
            if a.returncode != 0:
                return name, "PATCH-DOES-NOT-APPLY", pid
        b = subprocess.run("go build ./...", shell=True, cwd=W, env=env, capture_output=True, text=True)
        if b.returncode != 0:
            return name, "DOES-NOT-BUILD", pid
        r = subprocess.run("VERIF_REPO=%s ./check %s --tier quick" % (W, pid), shell=True, cwd="/verif", env=env, capture_output=True, text=True)
        lines = [l[:300] for l in r.stdout.splitlines() if "VIOLATION clause" in l or "inconclusive:" in l][:3]
        verdict = {0: "SILENT", 1: "ALARM", 2: "INCONCLUSIVE"}.get(r.returncode, str(r.returncode))
        if r.returncode == 1 and ("VIOLATION property=%s " % pid) not in r.stdout:
            verdict = "DRIVER-ERROR"
            lines = (r.stdout + r.stderr).splitlines()[-3:]
        return name, verdict, pid + " " + " | ".join(lines)
    finally:
        subprocess.run("git -C /repo worktree remove --force %s" % W, shell=True)
out = json.load(open("/verif/benign/RESULTS.json")) if os.path.exists("/verif/benign/RESULTS.json") else {}
with ThreadPoolExecutor(3) as ex:
    for name, verdict, detail in ex.map(run, names):
        print("%-12s %-22s %s" % (name, verdict, detail), flush=True)
        out[name] = {"verdict": verdict, "detail": detail}
json.dump(dict(sorted(out.items())), open("/verif/benign/RESULTS.json", "w"), indent=1)
