#!/usr/bin/env python3
"""Regenerates the tables between the AUTOGEN markers in DESIGN.md from known_findings.json, seeded/*/meta.json and mutations/."""
import json, glob, os, re
V = os.path.dirname(os.path.dirname(os.path.abspath(__file__)))
k = json.load(open(V + "/known_findings.json"))
out = []
_ms = [json.load(open(d + "/meta.json")) for d in glob.glob(V + "/seeded/*") if os.path.isdir(d)]
_obs = sum(1 for m in _ms if str(m.get("assessment", "")).startswith("OBSOLETE"))
_out = sum(1 for m in _ms if "assessment" in m) - _obs
_sib = sum(1 for m in _ms if "by C" in str(m.get("check_result_quick")) and "assessment" not in m)
_hist = sum(1 for m in _ms if "history" in m and "assessment" not in m and "by C" not in str(m.get("check_result_quick")))
STATS = "%d in eight waves: %d caught at once, %d after strengthening the check as described in their history line, %d caught by a sibling property's check, %d judged outside the statement and deliberately not asserted, %d made obsolete by a later repair of the code they relied on" % (len(_ms), len(_ms) - _out - _obs - _sib - _hist, _hist, _sib, _out, _obs)
out.append("Repaired defects and open findings (from known_findings.json; one `fix:` commit per root cause in /repo):\n")
out.append("| property | finding | status | commit | what |\n|---|---|---|---|---|")
for e in sorted(k, key=lambda e: e["property"]):
    out.append("| %s | %s | %s | %s | %s |" % (e["property"], e["id"], e["status"], e.get("commit", "-"), e.get("what", "").replace("|", "/")[:230]))
out.append("")
out.append("Seeded changes written by independent sub-agents from the property text alone (" + STATS + "; kept under seeded/; each confirmed here: patch applies to a fresh worktree, builds, whole suite passes, demonstration passes without and fails with it), and the verdict of the QUICK tier of the property's check run against the patched tree:\n")
out.append("| seeded change | what it needs to manifest | quick tier | clauses |\n|---|---|---|---|")
for d in sorted(x for x in glob.glob(V + "/seeded/*") if os.path.isdir(x)):
    m = json.load(open(d + "/meta.json"))
    r = m.get("check_result_quick", "?")
    if "history" in m:
        r += " after strengthening"
    if "assessment" in m:
        r = "obsolete (no longer breaks the property after a later fix)" if m["assessment"].startswith("OBSOLETE") else "not asserted (outside the statement)"
    out.append("| %s | %s | %s | %s |" % (os.path.basename(d), m.get("needs", "")[:170].replace("|", "/").replace("\n", " "), r, ", ".join(m.get("check_clauses", [])[:3])))
out.append("")
for d in sorted(x for x in glob.glob(V + "/seeded/*") if os.path.isdir(x)):
    m = json.load(open(d + "/meta.json"))
    if "history" in m:
        out.append("* %s: %s" % (os.path.basename(d), m["history"]))
    if "assessment" in m:
        out.append("* %s: %s" % (os.path.basename(d), m["assessment"]))
text = "\n".join(out) + "\n"
p = V + "/DESIGN.md"
s = open(p).read()
a, b = "<!-- AUTOGEN-TABLES-BEGIN -->", "<!-- AUTOGEN-TABLES-END -->"
if a in s:
    s = s[: s.index(a) + len(a)] + "\n" + text + s[s.index(b):]
    open(p, "w").write(s)
    print("DESIGN.md tables regenerated")
else:
    print(text)
# benign refactorings table (section 8.8)
res = json.load(open(V + "/benign/RESULTS.json")) if os.path.exists(V + "/benign/RESULTS.json") else {}
rows = ["| refactoring | what it changes | quick tier |", "|---|---|---|"]
for d in sorted(x for x in glob.glob(V + "/benign/*") if os.path.isdir(x)):
    n = os.path.basename(d)
    m = json.load(open(d + "/meta.json"))
    verdict = res.get(n, {}).get("verdict") or m.get("check_result_quick", "?")
    if m.get("history"):
        verdict += " (after correcting the check: see 8.3)"
    rows.append("| %s | %s | %s |" % (n, m.get("summary", "")[:230].replace("|", "/").replace("\n", " "), verdict))
s = open(p if False else V + "/DESIGN.md").read()
a, b = "<!-- AUTOGEN-BENIGN-BEGIN -->", "<!-- AUTOGEN-BENIGN-END -->"
if a in s:
    s = s[: s.index(a) + len(a)] + "\n" + "\n".join(rows) + "\n" + s[s.index(b):]
    open(V + "/DESIGN.md", "w").write(s)
    print("DESIGN.md benign table regenerated (%d rows)" % (len(rows) - 2))
