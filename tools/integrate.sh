#!/bin/sh
# usage: tools/integrate.sh cNN  — brings a builder workspace /tmp/b-cNN into /verif and /repo.
id=$1; ID=$(echo $id | tr a-z A-Z); D=/tmp/b-$id
set -e
head=$(git -C $D/repo rev-parse HEAD)
for c in $(git -C /repo rev-list --reverse main..$head); do
  if git -C /repo cherry-pick $c >/dev/null 2>&1; then echo "picked $(git -C /repo log --format='%h %s' -1)"; else echo "CHERRY-PICK FAILED for $c"; git -C /repo cherry-pick --abort; fi
done
rm -rf /verif/harness/props/$id && cp -r $D/harness/props/$id /verif/harness/props/$id
cp $D/known/$ID-*.json /verif/known/ 2>/dev/null || true
python3 - <<PY
import sys, pprint, json
sys.path.insert(0, "$D")
import importlib.util
spec = importlib.util.spec_from_file_location("bcfg", "$D/checkcfg.py"); m = importlib.util.module_from_spec(spec); spec.loader.exec_module(m)
c = m.CHECKS["$ID"]
open("/verif/cfg/$ID.py", "w").write("CHECK = " + pprint.pformat(c, width=150, sort_dicts=False) + "\n\nTEXT = {}\n")
k = json.load(open("/verif/known_findings.json")); have = {e["id"] for e in k}
for e in json.load(open("$D/known_findings.json")):
    if e.get("property") == "$ID" and e["id"] not in have:
        k.append(e); print("known finding:", e["id"], e["status"], e.get("commit"))
json.dump(k, open("/verif/known_findings.json", "w"), indent=1)
PY
echo "integrated $ID; now fill TEXT in cfg/$ID.py, fix commit shas in known_findings.json, run ./check $ID"
