#!/usr/bin/env python3
"""benigncheck.py <out_dir/k> <ID> <name>  — a property-PRESERVING refactoring written by an independent sub-agent:
patch applies to a fresh worktree of /repo HEAD, builds, whole suite passes; then ./check <ID> --tier quick against it
must stay silent (exit 0). Kept under /verif/benign/<name>/ with the verdict."""
import json, os, shutil, subprocess, sys, time
src, pid, name = sys.argv[1], sys.argv[2], sys.argv[3]
env = dict(os.environ, GOFLAGS="-mod=mod", GOPROXY="off", GOSUMDB="off", GOTOOLCHAIN="local")
W = "/tmp/benchk-%d" % os.getpid()
def sh(cmd, cwd=None, timeout=1500):
    p = subprocess.run(cmd, shell=True, cwd=cwd, env=env, stdout=subprocess.PIPE, stderr=subprocess.STDOUT, text=True, timeout=timeout)
    return p.returncode, p.stdout
meta = json.load(open(os.path.join(src, "meta.json")))
patch = os.path.abspath(os.path.join(src, "patch.diff"))
res = {"property": pid, "name": name}
sh("git -C /repo worktree add -q --detach %s HEAD" % W)
try:
    rc, out = sh("git apply %s" % patch, cwd=W)
    res["patch_applies"] = rc == 0
    rc, out = sh("go build ./... && go test -vet=off -count=1 ./...", cwd=W)
    res["suite_with_patch"] = "pass" if rc == 0 else "FAIL"
    t0 = time.time()
    rc, out = sh("VERIF_REPO=%s ./check %s --tier quick" % (W, pid), cwd="/verif")
    res["check_quick"] = {0: "SILENT", 1: "ALARM", 2: "INCONCLUSIVE"}.get(rc, "rc=%d" % rc)
    if rc == 1 and ("VIOLATION property=%s " % pid) not in out:
        res["check_quick"] = "DRIVER-ERROR"
    res["wall_s"] = round(time.time() - t0, 1)
    if rc != 0:
        res["lines"] = [l[:400] for l in out.splitlines() if "VIOLATION clause" in l or "inconclusive:" in l][:6]
    if res["patch_applies"] and res["suite_with_patch"] == "pass":
        dst = os.path.join("/verif/benign", name)
        shutil.rmtree(dst, ignore_errors=True); os.makedirs(dst)
        shutil.copy(patch, os.path.join(dst, "patch.diff"))
        meta.update({"checked_against": pid, "check_result_quick": res["check_quick"], "alarm_lines": res.get("lines", [])})
        json.dump(meta, open(os.path.join(dst, "meta.json"), "w"), indent=1)
finally:
    sh("git -C /repo worktree remove --force %s" % W)
print(json.dumps(res))
