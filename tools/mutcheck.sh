#!/bin/sh
# usage: tools/mutcheck.sh <ID> <patch.diff> [tier]
# Applies a mutation to a scratch worktree of /repo (never to /repo itself), runs the check against it
# (VERIF_REPO), removes the worktree. Prints CAUGHT (exit 1), MISSED (exit 0) or INCONCLUSIVE (exit 2).
ID=$1; P=$(readlink -f "$2"); TIER=${3:-quick}
W=/tmp/mut-$$
git -C /repo worktree add -q --detach $W HEAD || exit 3
( cd $W && git apply "$P" ) || { echo "PATCH-DOES-NOT-APPLY $ID $(basename $P)"; git -C /repo worktree remove --force $W; exit 3; }
if ! ( cd $W && GOFLAGS=-mod=mod GOPROXY=off go build ./... ) >/dev/null 2>&1; then echo "DOES-NOT-COMPILE $ID $(basename $P)"; git -C /repo worktree remove --force $W; exit 3; fi
cd /verif && VERIF_REPO=$W ./check "$ID" --tier "$TIER" > /tmp/mutcheck.$$.log 2>&1; rc=$?
git -C /repo worktree remove --force $W
case $rc in 1) echo "CAUGHT  $ID $(basename $P): $(grep -m1 -o 'clause=[a-z-]*' /tmp/mutcheck.$$.log)";; 0) echo "MISSED  $ID $(basename $P)";; *) echo "INCONCLUSIVE($rc) $ID $(basename $P)"; tail -5 /tmp/mutcheck.$$.log;; esac
rm -f /tmp/mutcheck.$$.log
