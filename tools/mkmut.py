#!/usr/bin/env python3
"""mkmut.py <out.diff> <file> <<< JSON [[old,new],...]  — creates a mutation patch against /repo HEAD (repo left clean)."""
import json, subprocess, sys
out, path = sys.argv[1], sys.argv[2]
pairs = json.load(sys.stdin)
full = "/repo/" + path
s = open(full).read()
for old, new in pairs:
    if old not in s:
        print("OLD NOT FOUND in", path, ":", old[:60]); sys.exit(1)
    s = s.replace(old, new, 1)
open(full, "w").write(s)
d = subprocess.run(["git", "-C", "/repo", "diff"], capture_output=True, text=True).stdout
subprocess.run(["git", "-C", "/repo", "checkout", "--", "."])
b = subprocess.run(["bash", "-c", "cd /repo && git apply --check %s 2>&1" % "/dev/stdin"], input=d, capture_output=True, text=True)
open(out, "w").write(d)
print("wrote", out, len(d.splitlines()), "lines")
