"""Per-property configuration of the driver: which tests run in which tier, how many
cases/shards, the non-triviality rule text, and generator classes that must occur."""

CHECKS = {
    "C01": {
        "rule": ("rapid-generated histories of the 16 Filespace ops on a fresh memfs root and on child views "
                 "(model-aware path choice, noisy spellings), each op compared with the tree model and the whole "
                 "tree walked after every step. Non-trivial: >=3 executed ops, >=2 different mutating op kinds that "
                 "succeeded below one common top-level name, and >=1 query after them. Distinct = distinct case JSON (FNV-64)."),
        "assumptions": ["reference tree model of DESIGN.md section 3 is the contract", "error presence compared, never texts",
                        "ops outside the fixed domain (copy onto existing destination, remove of a view root, escaping paths) are skipped"],
        "essential_labels": {"all": ["via-child-view", "root-spelling", "inner-dotdot", "caller-scribbles", "writer"]},
        "tiers": {
            "quick": [{"test": "^TestProp$", "checks": 12000, "shards": 4, "timeout": 240}],
            "thorough": [{"test": "^TestProp$", "checks": 40000, "shards": 16, "timeout": 3000}],
        },
    },
}
