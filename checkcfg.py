"""Per-property configuration of the driver: which tests run in which tier, how many
cases/shards, the non-triviality rule text, and generator classes that must occur."""

CHECKS = {
    "C01": {
        "rule": ("rapid-generated histories of the 16 Filespace ops on a fresh memfs root and on child views "
                 "(model-aware path choice, noisy spellings), each op compared with the tree model and the whole "
                 "tree walked after every step. Non-trivial: >=3 executed ops, >=2 different mutating op kinds that "
                 "succeeded below one common top-level name, and >=1 query after them. Distinct = distinct case JSON (FNV-64)."),
        "assumptions": ["reference tree model of DESIGN.md section 3 is the contract", "error presence compared, never texts",
                        "ops outside the fixed domain (copy onto existing destination, remove of a view root, escaping paths) are skipped"],
        "essential_labels": {"all": ["via-child-view", "root-spelling", "inner-dotdot", "caller-scribbles", "writer"]},
        "tiers": {
            "quick": [{"test": "^TestProp$", "checks": 12000, "shards": 4, "timeout": 240}],
            "thorough": [{"test": "^TestProp$", "checks": 40000, "shards": 16, "timeout": 3000}],
        },
    },
    "C02": {
        "rule": ("rapid-generated histories restricted to the property's preconditions (model-gated), run in lock-step on a "
                 "backend pair drawn from {mem, disk, mem child view, disk child view}; per-step results and whole trees compared "
                 "between the two backends; 35% of cases end with one op outside the preconditions judged per backend (no panic, "
                 "change confined to addressed paths); host sentinels next to the disk root checked. Non-trivial: a disk backend "
                 "in the pair, >=1 mutation later read back at the same path, and >=1 copy or remove. Distinct = distinct case JSON."),
        "assumptions": ["preconditions as stated in C02 (source exists with the kind the op names, destination parent exists, copy destination absent, remove target exists, view target is a directory)",
                        "ReadDir compared as a set; Lstat compared on IsDir, file Size and Name (not for the root)"],
        "essential_labels": {"all": ["has-CopyDirectory", "has-Writer", "has-outside-precondition-op", "via-child-view"]},
        "tiers": {
            "quick": [{"test": "^TestProp$", "checks": 2500, "shards": 6, "timeout": 240}],
            "thorough": [{"test": "^TestProp$", "checks": 6000, "shards": 16, "timeout": 3000}],
        },
    },
    "C03": {
        "rule": ("(a) exhaustive: every path of 1..N segments over {in,out,.,..,''} with/without leading '/', x 22 op forms (13 single-path ops; "
                 "3 copy ops with the path as first, second and both arguments) x 18 view kinds (memory/disk child and child-of-child, SubFS, "
                 "read-only mask + child, encrypted + child, cache + child, mixed nestings); each call on a fresh fixture whose parent tree holds marker "
                 "files outside the view root; (b) rapid: single calls with paths up to 12 segments and sequences of 2-11 calls. Oracle: parent tree "
                 "outside the view root byte-identical after the call (cache: after Commit), no returned bytes/listing/FileInfo/boolean reveals an "
                 "outside-only node, views returned by Filespace() are probed too, no panic. Non-trivial: a path argument climbs above the view root."),
        "assumptions": ["escaping paths may be rejected or clamped into the root; both are accepted", "removing a view's own root directory is not judged",
                        "encrypted kinds: outside files are encrypted with the same key so that an escaping read would be visible"],
        "essential_labels": {"all": ["escaping", "inside-control", "kind:cache-child-mem", "kind:disk-child", "kind:ro-child-mem", "kind:enc-child-mem"]},
        "tiers": {
            "quick": [{"test": "^TestEnum$", "shards": 8, "timeout": 280},
                      {"test": "^TestPropLong$", "checks": 6000, "shards": 2, "timeout": 240, "seed_offset": 100},
                      {"test": "^TestPropSeq$", "checks": 2500, "shards": 2, "timeout": 240, "seed_offset": 200}],
            "thorough": [{"test": "^TestEnum$", "shards": 16, "timeout": 3400},
                         {"test": "^TestPropLong$", "checks": 40000, "shards": 8, "timeout": 3000, "seed_offset": 100},
                         {"test": "^TestPropSeq$", "checks": 20000, "shards": 8, "timeout": 3000, "seed_offset": 200}],
        },
    },
}
