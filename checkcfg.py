"""Per-property configuration of the driver lives in cfg/<ID>.py (CHECK = driver config: which tests
run in which tier, case counts/shards, the non-triviality rule text, generator classes that must occur;
TEXT = MANIFEST texts)."""
import glob, importlib.util, os

CHECKS = {}
TEXTS = {}
for _f in sorted(glob.glob(os.path.join(os.path.dirname(os.path.abspath(__file__)), "cfg", "C*.py"))):
    _pid = os.path.basename(_f)[:-3]
    _spec = importlib.util.spec_from_file_location("cfg_" + _pid, _f)
    _m = importlib.util.module_from_spec(_spec)
    _spec.loader.exec_module(_m)
    CHECKS[_pid] = _m.CHECK
    if getattr(_m, "TEXT", None):
        TEXTS[_pid] = _m.TEXT
