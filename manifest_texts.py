HOOK_COMMITS = ["e0d714e hook: verif-tagged yield points in the fsloop consumer gap and after the close announcement", "7a27e62 hook: verif-tagged export of the SSH sandbox start-up script builder (VerifInitSequence)", "0abfaaa hook: verif-tagged yield point between the done test and the close in context scope Stop (plain and isolated)", "810b47e hook: verif-tagged yield points in the memfs check-then-create windows"]
NOTES = ("All checks are property-based tests / fuzzing (rapid v1.3.0, exhaustive small-alphabet enumeration, native go fuzz in thorough). "
         "Driver: ./check <ID> [--tier quick|thorough] | --replay <file>. Exit 0 held / 1 VIOLATION / 2 inconclusive. "
         "known_findings.json lists repaired (fixed:) and open findings; open ones print KNOWN-FINDING and their cause class is excluded from generation.")
NOT_APPLICABLE = {}
import checkcfg
TEXTS = checkcfg.TEXTS
