HOOK_COMMITS = []
NOTES = ("All checks are property-based tests / fuzzing (rapid v1.3.0, exhaustive small-alphabet enumeration, native go fuzz in thorough). "
         "Driver: ./check <ID> [--tier quick|thorough] | --replay <file>. Exit 0 held / 1 VIOLATION / 2 inconclusive. "
         "known_findings.json lists repaired (fixed:) and open findings; open ones print KNOWN-FINDING and their cause class is excluded from generation.")
NOT_APPLICABLE = {}
TEXTS = {
 "C01": {
  "technique": "model-based stateful property testing (rapid): generated op histories vs. reference tree model, whole-tree comparison after every step, snapshot/aliasing probes",
  "level_text": "Exploration: tens of thousands of generated histories (16 ops, noisy path spellings, child views, caller-side buffer reuse) are compared step by step with a plain tree model; passing means no divergence on the generated sample, not absence.",
  "level_note": "Trusts the reference model in harness/fsmodel (DESIGN.md section 3) and rapid's generators; ops whose outcome the statement leaves open are skipped, error texts/order/times are never compared.",
  "design_ref": "DESIGN.md 3, 4/C01"},
 "C02": {
  "technique": "differential property testing (rapid): same generated history in lock-step on memory/disk/child-view backend pairs, results and trees compared; outside-precondition ops judged by containment predicate",
  "level_text": "Exploration: generated precondition-respecting histories run on two backends at once, every result and the whole tree compared after each step; ops outside the preconditions must not panic and may only change addressed paths; host sentinels guard the disk root.",
  "level_note": "Trusts the model only for gating preconditions; the verdict is the backend-vs-backend comparison. Real temp directories under TMPDIR are used.",
  "design_ref": "DESIGN.md 4/C02"},
 "C03": {
  "technique": "exhaustive small-alphabet path enumeration x all op forms x 18 view kinds, plus rapid-generated long paths and call sequences; containment oracle (parent tree outside the root unchanged, no outside content observable)",
  "level_text": "Exploration with an exhaustive core: all paths up to 4 (disk 3) segments over {in,out,.,..,''} (thorough 6/5) for every op form and view kind, then random longer paths and sequences. Each call is judged by comparing the parent tree outside the view root before/after and by scanning every returned value for outside-only content.",
  "level_note": "Trusts the fixture construction and the walker; escaping paths may be rejected or clamped (both accepted); removal of a view's own root is not judged.",
  "design_ref": "DESIGN.md 4/C03"},
}
